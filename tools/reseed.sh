#!/bin/bash
# tools/reseed.sh [seed ids...] : re-run every kept seeded change against the checks of the properties it breaks, on
# /repo itself (apply, check, undo); prints one line per seed.  (The suite-still-passes confirmation was made when the
# seed was kept; this only re-measures the verdict of the current machinery.)  Evidence files are restored afterwards.
cd /verif
ids="$@"; [ -z "$ids" ] && ids=$(ls seeded)
mkdir -p /tmp/reseed
for id in $ids; do
  d=seeded/$id; [ -f $d/patch.diff ] || continue
  props=$(python3 - "$d/meta.json" <<'PY'
import json,sys,re
m=json.load(open(sys.argv[1]))
ps=re.findall(r"C\d\d", str(m.get("checks","")))
if not ps:
    w=m.get("what_was_run","")
    ps=re.findall(r"\bC\d\d\b", w.split("seeded_eval.sh",1)[-1])
    ps=[p for p in ps if not re.fullmatch(r"C\d\d", m.get("seed","")[:3]) or True]
bp=m.get("breaks_property")
if isinstance(bp,str): ps=[bp]+ps
seen=[]
for p in ps:
    if p not in seen: seen.append(p)
import os
print(" ".join(seen[:1] if os.environ.get("ONLY_BREAKS") else seen))
PY
)
  if ! git -C /repo apply --check $PWD/$d/patch.diff 2>/dev/null; then echo "$id PATCH-DOES-NOT-APPLY"; continue; fi
  git -C /repo apply $PWD/$d/patch.diff
  R=""
  for p in $props; do ./check $p > /tmp/reseed/${id}_$p.txt 2>&1; R="$R $p:exit$?"; done
  git -C /repo checkout -- .
  echo "$id$R"
done
git -C /verif checkout -- evidence
