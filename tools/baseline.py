#!/usr/bin/env python3
"""run the repository's pinned suite and compare with /root/.vp/BASELINE.json stable_pass"""
import json, subprocess, sys, tempfile, os, xml.etree.ElementTree as ET
b = json.load(open("/root/.vp/BASELINE.json"))
out = tempfile.mktemp(suffix=".xml", dir="/tmp")
cmd = b["cmd"].replace("<file>", out)
r = subprocess.run(cmd, shell=True, capture_output=True, text=True)
passed = set()
for tc in ET.parse(out).getroot().iter("testcase"):
    ok = not any(ch.tag in ("failure", "error", "skipped") for ch in tc)
    if ok:
        passed.add(f"{tc.get('classname')}::{tc.get('name')}")
os.unlink(out)
missing = [t for t in b["stable_pass"] if t not in passed]
print(f"stable_pass={len(b['stable_pass'])} passed_now={len(passed)} missing={len(missing)}")
for t in missing[:20]:
    print("  MISSING", t)
sys.exit(1 if missing else 0)
