#!/bin/bash
# tools/mutant.sh <file-relative-to-src/torchphysics> <sed-expr> <prop> [scenarios...]  : run dev runner on a mutated scratch copy
set -e
D=$(mktemp -d /tmp/mut.XXXX)
cp -r /repo/src $D/src
F=$D/src/torchphysics/$1
cp $F $F.orig
sed -i "$2" $F
if cmp -s $F $F.orig; then echo "MUTATION DID NOT APPLY"; rm -rf $D; exit 9; fi
shift 2
TP_SRC=$D/src python3-vt /verif/tools/dev.py "$@" 2>&1 | cut -c1-400 | grep -v "bad 0" | tail -15
rm -rf $D
