#!/bin/bash
# run every claimed check (quick tier) and print one line each
cd /verif
for p in $(python3 -c "import json;print(' '.join(c['property_id'] for c in json.load(open('MANIFEST.json'))['checks']))"); do ./check $p 2>&1 | tail -1; done
