"""tools/prof.py <prop> <scenario> <cfg> [timeout_ms]: per-obligation timing of one scenario (parallel discharge)"""
import sys, time, os
sys.path.insert(0, '/verif')
from concurrent.futures import ProcessPoolExecutor

prop, sname, cfg = sys.argv[1:4]
tmo = int(sys.argv[4]) if len(sys.argv) > 4 else 5000


def gen():
    from tpv import spec, core, runner
    from tpv.interp import Interp
    reg = runner.load_contracts()
    sdef = [s for s in reg if s.prop == prop and s.name == sname][0]
    I = Interp()
    results = I.run_paths(lambda: sdef.fn(spec.Session(I, sdef, cfg)))
    return I, results


def work(k):
    from tpv import solve, core
    I, results = gen()
    n = 0
    for (ctx, dec, (st, payload)) in results:
        core.set_ctx(ctx)
        for ob in ctx.obligations:
            if n == k:
                t = time.time()
                r = solve.discharge(ctx, ob, tmo)
                return (ob.name, r["status"], round(time.time() - t, 2), r["backend"])
            n += 1
    return None


if __name__ == "__main__":
    I, results = gen()
    total = sum(len(c.obligations) for c, _, _ in results)
    print("paths", len(results), "obligations", total, [r[2][0] for r in results])
    with ProcessPoolExecutor(16) as ex:
        for r in ex.map(work, range(total)):
            if r and (r[1] != "proved" or r[2] > 1):
                print(r)
