#!/bin/bash
# tools/seeded_eval.sh <seed-dir-name> <property> [<check-props...>]
# confirms a seeded change (demo fails with it / passes without, suite green) and runs our checks against it
ID=$1; PROP=$2; shift 2; CHECKS="$PROP $@"
W=${W:-/tmp/seed_$ID}
OUT=/verif/seeded/$ID
mkdir -p $OUT
cp $W/patch.diff $OUT/patch.diff; cp $W/demo.py $OUT/demo.py
cd $W
PYTHONPATH=$W/src /venv/bin/python demo.py > $OUT/demo_with.txt 2>&1; DW=$?
REF=${REF:-/repo/src}   # pristine source (REF=/tmp/ref/src while something else uses /repo)
PYTHONPATH=$REF /venv/bin/python demo.py > $OUT/demo_without.txt 2>&1; DWO=$?
SUITE=$(PYTHONPATH=$W/src /venv/bin/python -m pytest -q -p no:cacheprovider tests 2>&1 | tail -1)
echo "demo with change: exit $DW ; without: exit $DWO ; suite: $SUITE"
# SCRATCH=1: leave /repo alone, the checks read the patched worktree (TP_SRC); native replays then see the unpatched /repo
if [ -z "$SCRATCH" ]; then cd /repo && git apply $OUT/patch.diff || { echo "PATCH DOES NOT APPLY to /repo"; exit 9; }; else export TP_SRC=$W/src; fi
RES=""
for c in $CHECKS; do
  cd /verif && ./check $c > $OUT/check_$c.txt 2>&1; RC=$?
  RES="$RES $c:exit$RC"
  grep -E "^(VIOLATION|CHECKER|UNDECIDED)" $OUT/check_$c.txt | cut -c1-260 | head -4
done
[ -z "$SCRATCH" ] && git -C /repo checkout -- .
echo "checks:$RES"
echo "{\"seed\": \"$ID\", \"property\": \"$PROP\", \"demo_exit_with_change\": $DW, \"demo_exit_without_change\": $DWO, \"suite_with_change\": \"$SUITE\", \"checks\": \"$RES\"}" > $OUT/result.json
