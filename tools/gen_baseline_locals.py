"""tools/gen_baseline_locals.py: record the use signatures of the locals of every repo function that carries a loop
contract (run when contracts are written / re-attached; the result is committed as contracts/baseline_locals.json)"""
import ast, json, os, re, sys
sys.path.insert(0, "/verif")
from tpv import localnames
from tpv.loader import Repo

repo = Repo()
quals = set()
for fn in os.listdir("/verif/contracts"):
    if fn.endswith(".py"):
        quals |= set()
# every function of the repo: cheap, and contracts may be attached to any of them
out = {}
for mname, m in repo.modules.items():
    if m is None:
        continue
    for node in ast.walk(m.tree):
        if isinstance(node, ast.FunctionDef) and any(isinstance(x, (ast.For, ast.While)) for x in ast.walk(node)):
            # qualname as the engine reports it
            owner = None
            for c in ast.walk(m.tree):
                if isinstance(c, ast.ClassDef) and node in c.body:
                    owner = c.name
            q = f"{m.name}.{owner}.{node.name}" if owner else f"{m.name}.{node.name}"
            out[q] = {nm: [list(x) for x in localnames._key(c)] for nm, c in localnames.signatures(node).items()}
            out[q]["__loops__"] = localnames.carried(node)
json.dump(out, open("/verif/contracts/baseline_locals.json", "w"), indent=0, sort_keys=True)
print(len(out), "functions with loops recorded")
