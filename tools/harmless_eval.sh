#!/bin/bash
# tools/harmless_eval.sh <id> : a behaviour-preserving change (W=<worktree> with patch.diff, demo.py): confirm it is
# harmless (suite summary, identical demo output), then run EVERY check whose scenarios execute code of a touched file;
# all of them must stay at exit 0
ID=$1
W=${W:-/tmp/seedw_$ID}
OUT=/verif/seeded_harmless/$ID
mkdir -p $OUT
cp $W/patch.diff $OUT/patch.diff; cp $W/demo.py $OUT/demo.py
cd $W
PYTHONPATH=$W/src /venv/bin/python demo.py > $OUT/demo_with.txt 2>/dev/null; DW=$?
REF=${REF:-/repo/src}   # pristine source to compare with (REF=/tmp/ref/src while something else patches /repo)
PYTHONPATH=$REF /venv/bin/python demo.py > $OUT/demo_without.txt 2>/dev/null; DWO=$?
SAME=$(cmp -s $OUT/demo_with.txt $OUT/demo_without.txt && echo identical || echo DIFFERENT)
SUITE=$(PYTHONPATH=$W/src /venv/bin/python -m pytest -q -p no:cacheprovider tests 2>&1 | tail -1)
echo "demo exit with/without: $DW/$DWO outputs: $SAME ; suite: $SUITE"
PROPS=$(python3 - $OUT/patch.diff <<'PY'
import json,glob,sys,re
files=set(re.findall(r'^\+\+\+ b/src/(torchphysics/\S+)\.py', open(sys.argv[1]).read(), re.M))
mods={f.replace('/','.') for f in files}
out=[]
for ev in sorted(glob.glob('/verif/evidence/C*.json')):
    e=json.load(open(ev)); fx=e['coverage'].get('functions_executed_from_source',{})
    if any(any(fn.startswith(m+'.') for m in mods) for fn in fx): out.append(e['property_id'])
print(' '.join(out))
PY
)
echo "checks affected: $PROPS"
# SCRATCH=1: do not touch /repo, let the checks read the (patched) worktree source instead (TP_SRC)
if [ -z "$SCRATCH" ]; then
  cd /repo && git apply $OUT/patch.diff || { echo "PATCH DOES NOT APPLY to /repo"; exit 9; }
else
  export TP_SRC=$W/src
fi
RES=""
for c in $PROPS; do
  cd /verif && ./check $c ${JOBS:+--jobs $JOBS} > $OUT/check_$c.txt 2>&1; RC=$?
  RES="$RES $c:exit$RC"
  grep -E "^(VIOLATION|CHECKER|UNDECIDED)" $OUT/check_$c.txt | cut -c1-260 | head -4
done
[ -z "$SCRATCH" ] && git -C /repo checkout -- .
# evidence files were rewritten for the patched tree: restore them
git -C /verif checkout -- evidence 2>/dev/null
echo "checks:$RES"
echo "{\"id\": \"$ID\", \"demo_outputs\": \"$SAME\", \"suite_with_change\": \"$SUITE\", \"checks\": \"$RES\"}" > $OUT/result.json
