#!/usr/bin/env python3
"""print repo files without docstrings/blank lines (reading aid)"""
import ast,sys
for f in sys.argv[1:]:
    src=open(f).read()
    t=ast.parse(src)
    for n in ast.walk(t):
        if isinstance(n,(ast.FunctionDef,ast.ClassDef,ast.Module)) and n.body and isinstance(n.body[0],ast.Expr) and isinstance(getattr(n.body[0],'value',None),ast.Constant) and isinstance(n.body[0].value.value,str):
            n.body=n.body[1:] or [ast.Pass()]
    print("#####",f); print(ast.unparse(t))
